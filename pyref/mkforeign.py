#!/usr/bin/env python3
"""Second independent producer: CPython's zipfile writes archives with a ground-truth manifest.

usage: mkforeign.py <outdir> [--thorough]
writes <outdir>/<k>.zip and <outdir>/<k>.json:
  {"label":..., "comment": hex, "entries": [{"name": str, "size": n, "crc": n, "method": n, "date": n, "time": n,
                               "mode": n, "comment": hex, "content": hex|null, "is_dir": bool}]}
"""
import binascii, itertools, json, os, sys, zipfile, zlib

METHODS = [zipfile.ZIP_STORED, zipfile.ZIP_DEFLATED, zipfile.ZIP_BZIP2, zipfile.ZIP_LZMA]


def content(kind, n):
    if kind == 0:
        return b""
    if kind == 1:
        return bytes((i * 37 + 11) % 256 for i in range(n))
    return (b"compressible text " * (n // 18 + 1))[:n]


def dos(dt):
    y, mo, d, h, mi, s = dt
    return ((y - 1980) << 9) | (mo << 5) | d, (h << 11) | (mi << 5) | (s // 2)


def build(path, label, entries, comment=b"", force64=False):
    man = {"label": label, "comment": binascii.hexlify(comment).decode(), "entries": []}
    with zipfile.ZipFile(path, "w", allowZip64=True) as zf:
        for e in entries:
            name, method, data, dt, mode, fcomment, is_dir = e
            zi = zipfile.ZipInfo(name, date_time=dt)
            zi.compress_type = method
            zi.external_attr = (mode << 16) | (0x10 if is_dir else 0)
            zi.comment = fcomment
            if is_dir:
                zf.writestr(zi, b"")
            elif force64:
                with zf.open(zi, "w", force_zip64=True) as f:
                    f.write(data)
            else:
                zf.writestr(zi, data)
        zf.comment = comment
    with zipfile.ZipFile(path) as zf:
        for zi, e in zip(zf.infolist(), entries):
            name, method, data, dt, mode, fcomment, is_dir = e
            d, t = dos(dt)
            man["entries"].append({
                "name": zi.filename, "size": len(data), "crc": zlib.crc32(data) & 0xFFFFFFFF, "method": zi.compress_type,
                "date": d, "time": t, "mode": zi.external_attr >> 16, "comment": binascii.hexlify(fcomment).decode(),
                "content": binascii.hexlify(data).decode() if len(data) <= 4096 else None, "is_dir": is_dir,
                "csize": zi.compress_size, "ext_attr": zi.external_attr,
            })
    json.dump(man, open(path[:-4] + ".json", "w"))


def main():
    out = sys.argv[1]
    thorough = "--thorough" in sys.argv
    os.makedirs(out, exist_ok=True)
    k = 0
    names = ["a.txt", "dir/b.bin", "ü☃.txt", "sp ace", "x" * 200]
    dts = [(1980, 1, 1, 0, 0, 0), (2107, 12, 31, 23, 59, 58), (2024, 2, 29, 12, 34, 56)]
    modes = [0o100644, 0o100755, 0o100000, 0o100600]
    # single-entry product
    for method, ckind, force64 in itertools.product(METHODS, [0, 1, 2], [False, True]):
        for ni, name in enumerate(names):
            data = content(ckind, 300 + 17 * ni)
            e = (name, method, data, dts[(ni + ckind) % 3], modes[(ni + method) % 4], b"" if ni % 2 else b"file comment \xc3\xbc", False)
            build(os.path.join(out, f"{k:05}.zip"), f"single m{method} c{ckind} z{int(force64)} n{ni}", [e], comment=[b"", b"archive comment", b"c" * 1000][ni % 3], force64=force64)
            k += 1
    # multi-entry with directories, duplicates are not producible by CPython without warnings -> skipped
    for method in METHODS:
        for force64 in [False, True]:
            es = [("d/", zipfile.ZIP_STORED, b"", dts[0], 0o40755, b"", True)]
            for i in range(3):
                es.append((f"d/f{i}", method, content(1 + i % 2, 100 * (i + 1)), dts[i], modes[i], b"", False))
            es.append(("empty", method, b"", dts[1], 0o100644, b"e", False))
            build(os.path.join(out, f"{k:05}.zip"), f"multi m{method} z{int(force64)}", es, comment=b"multi", force64=force64)
            k += 1
    # empty archive
    build(os.path.join(out, f"{k:05}.zip"), "empty", [], comment=b"")
    k += 1
    build(os.path.join(out, f"{k:05}.zip"), "empty-with-comment", [], comment=b"only a comment")
    k += 1
    # larger content crossing internal buffers
    for method in METHODS:
        build(os.path.join(out, f"{k:05}.zip"), f"big m{method}", [("big", method, content(1, 70001) + content(2, 70001), dts[2], 0o100644, b"", False)])
        k += 1
    if thorough:
        for n in (65535, 65536, 70000):
            es = [(f"n{i}", zipfile.ZIP_STORED, b"", dts[0], 0o100644, b"", False) for i in range(n)]
            build(os.path.join(out, f"{k:05}.zip"), f"count {n}", es, comment=b"many")
            k += 1
    print(f"WROTE {k}")


if __name__ == "__main__":
    main()

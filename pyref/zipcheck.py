#!/usr/bin/env python3
"""Foreign judge: CPython's zipfile reads archives written by the crate and compares what it
sees with the harness's expectation.

usage: zipcheck.py <dir>
  <dir>/<k>.zip  the archive
  <dir>/<k>.json {"comment": hex, "password": hex|null,
                  "entries": [{"name": hex, "utf8": bool, "size": n, "crc": n, "method": n,
                               "date": n, "time": n, "ext_attr": n|null}]}
prints one line per disagreement:  DISAGREE <k> <clause> <detail>
and a final line:                  CHECKED <archives> <entries> <entries_read>
exit status 0 always (the caller decides); 2 on usage / internal error.
"""
import json, os, sys, zipfile, zlib, binascii, warnings

warnings.simplefilter("ignore")


def dos_tuple(d, t):
    return ((d >> 9) + 1980, (d >> 5) & 0xF, d & 0x1F, t >> 11, (t >> 5) & 0x3F, (t & 0x1F) * 2)


def check(path, exp, k, out):
    n_read = 0
    try:
        zf = zipfile.ZipFile(path)
    except Exception as e:  # noqa
        out.append(f"DISAGREE {k} open {type(e).__name__}: {e}")
        return 0, 0
    with zf:
        infos = zf.infolist()
        want = exp["entries"]
        if len(infos) != len(want):
            out.append(f"DISAGREE {k} count cpython sees {len(infos)} entries, expected {len(want)}")
            return 0, 0
        if zf.comment != binascii.unhexlify(exp["comment"]):
            out.append(f"DISAGREE {k} comment cpython sees {len(zf.comment)} bytes, expected {len(exp['comment'])//2}")
        pwd = binascii.unhexlify(exp["password"]) if exp.get("password") else None
        for i, (zi, w) in enumerate(zip(infos, want)):
            raw = binascii.unhexlify(w["name"])
            try:
                name = raw.decode("utf-8") if w["utf8"] else raw.decode("cp437")
            except UnicodeDecodeError:
                name = None
            if name is not None:
                z = name.find("\0")
                if z >= 0:
                    name = name[:z]
                if zi.filename != name:
                    out.append(f"DISAGREE {k} name entry {i}: cpython {zi.filename[:40]!r} expected {name[:40]!r}")
            if bool(zi.flag_bits & 0x800) != bool(w["utf8"]):
                out.append(f"DISAGREE {k} utf8flag entry {i}: flag_bits {zi.flag_bits:#x}")
            if zi.file_size != w["size"]:
                out.append(f"DISAGREE {k} size entry {i}: cpython {zi.file_size} expected {w['size']}")
            if zi.CRC != w["crc"]:
                out.append(f"DISAGREE {k} crc entry {i}: cpython {zi.CRC:#x} expected {w['crc']:#x}")
            if zi.compress_type != w["method"]:
                out.append(f"DISAGREE {k} method entry {i}: cpython {zi.compress_type} expected {w['method']}")
            if tuple(zi.date_time) != dos_tuple(w["date"], w["time"]):
                out.append(f"DISAGREE {k} time entry {i}: cpython {zi.date_time} expected {dos_tuple(w['date'], w['time'])}")
            if w.get("ext_attr") is not None and zi.external_attr != w["ext_attr"]:
                out.append(f"DISAGREE {k} attr entry {i}: cpython {zi.external_attr:#x} expected {w['ext_attr']:#x}")
            if w["method"] in (0, 8, 12, 14):
                try:
                    data = zf.read(zi, pwd=pwd)
                    n_read += 1
                    if len(data) != w["size"] or (zlib.crc32(data) & 0xFFFFFFFF) != w["crc"]:
                        out.append(f"DISAGREE {k} data entry {i}: cpython read {len(data)} bytes crc {zlib.crc32(data) & 0xFFFFFFFF:#x}")
                except Exception as e:  # noqa
                    out.append(f"DISAGREE {k} read entry {i}: {type(e).__name__}: {e}")
    return len(want), n_read


def main():
    if len(sys.argv) != 2:
        print("usage: zipcheck.py <dir>", file=sys.stderr)
        return 2
    d = sys.argv[1]
    out = []
    na = ne = nr = 0
    for f in sorted(os.listdir(d)):
        if not f.endswith(".json"):
            continue
        k = f[:-5]
        exp = json.load(open(os.path.join(d, f)))
        e, r = check(os.path.join(d, k + ".zip"), exp, k, out)
        na += 1
        ne += e
        nr += r
    for line in out:
        print(line)
    print(f"CHECKED {na} {ne} {nr}")
    return 0


if __name__ == "__main__":
    sys.exit(main())
